"""CLI:  python3-vt -m avs check Cxx [--tier quick|thorough]
          python3-vt -m avs selfcheck
          python3-vt -m avs explain <report.json>
          python3-vt -m avs selftest [Cxx ...]
"""
import importlib
import json
import os
import sys
import time
import traceback

from .core.srcmodel import Source, AnalysisError
from .core import report

ALL = [f'C{n:02d}' for n in range(1, 21)]


def rules_module(prop):
    try:
        return importlib.import_module(f'avs.rules.{prop.lower()}')
    except ModuleNotFoundError as e:
        if e.name == f'avs.rules.{prop.lower()}':
            return None
        raise


def run_rules(prop, src, tier):
    mod = rules_module(prop)
    if mod is None:
        raise AnalysisError(f'no rule module for {prop}')
    chk = report.Checker(prop, src, tier)
    mod.run(chk)
    files = [f for f in getattr(mod, 'FILES', []) if src.exists(f)]
    if files:
        from .core import effects
        rid = f'{prop}-H1'
        chk.rule(rid, 'history independence: no function on the property\'s path leaves state behind for a later call or another instance '
                      '(module/class-level state, mutable defaults, memoising decorators), except caches whose key determines the cached value', 1)
        scopes = {rel: effects.path_scope(chk, rel) | set(getattr(mod, 'EXTRA_SCOPE', {}).get(rel, ())) for rel in files}
        effects.history_rule(chk, files, rid)
        hid = f'{prop}-H2'
        chk.rule(hid, 'caller-owned containers: no function on the path pops from / appends to / clears a dict or list that belongs to its caller '
                      '(its own **kwargs and names re-bound to a fresh copy are its own)', 0)
        for rel in files:
            effects.borrowed_argument_rule(chk, rel, scopes[rel], hid)
        bid = f'{prop}-H3'
        chk.rule(bid, 'no call on the path can only raise: builtins (print, len, range, min, max, sorted, ...) are called with keywords and '
                      'argument counts they accept', 0)
        for rel in files:
            effects.builtin_signature_rule(chk, rel, scopes[rel], bid)
        from .core import dtypes
        tid = f'{prop}-T1'
        chk.rule(tid, 'element types: every buffer allocated on the property\'s path has the element kind it has on the reviewed tree '
                      '(int/uint/float/complex and width, or "like <input>"); respelling a type is not a change', 0)
        dtypes.element_type_rule(chk, files, tid, lambda rel: scopes[rel])
    return chk


def cmd_check(argv):
    prop = argv[0]
    tier = os.environ.get('VERIF_TIER', 'quick')
    if '--tier' in argv:
        tier = argv[argv.index('--tier') + 1]
    if tier not in ('quick', 'thorough'):
        tier = 'quick'
    seed = int(os.environ.get('VERIF_SEED', '0') or 0)
    t0 = time.time()
    try:
        src = Source()
        chk = run_rules(prop, src, tier)
        st = None
        if tier == 'thorough':
            from .selftest import runner
            st = runner.run(prop, seed)
            if st.get('failures'):
                raise AnalysisError('checker self-test failed: ' + '; '.join(st['failures'][:5]))
            cp = runner.corpus(prop)
            st['corpus'] = {k: v for k, v in cp.items() if k != 'failures'}
            if cp.get('failures'):
                raise AnalysisError('corpus check failed: ' + '; '.join(cp['failures'][:5]))
        code, _ = report.finish(chk, time.time() - t0, seed=seed, selftest=st)
        return code
    except AnalysisError as e:
        print(f'ANALYSIS-ERROR property={prop} {e}')
        return 2
    except Exception:
        traceback.print_exc()
        print(f'ANALYSIS-ERROR property={prop} internal error (traceback above)')
        return 2


def cmd_selfcheck(argv):
    """setup_cmd: interpreter ok, /repo parses, every rule module imports."""
    ok = True
    src = Source()
    for p in ALL:
        try:
            m = rules_module(p)
        except Exception as e:
            print(f'selfcheck: {p}: import failed: {e}')
            ok = False
            continue
        if m is None:
            continue
        for rel in getattr(m, 'FILES', []):
            try:
                src.tree(rel)
            except AnalysisError as e:
                print(f'selfcheck: {p}: {e}')
                ok = False
    print('selfcheck', 'ok' if ok else 'FAILED', f'python={sys.version.split()[0]}')
    return 0 if ok else 2


def cmd_explain(argv):
    path = argv[0]
    with open(path) as f:
        rep = json.load(f)
    prop = rep['property']
    print(json.dumps(rep, indent=1))
    src = Source()
    try:
        chk = run_rules(prop, src, rep.get('tier', 'quick'))
    except AnalysisError as e:
        print(f'ANALYSIS-ERROR property={prop} {e}')
        return 2
    hits = [o for o in chk.obs if o.rule == rep['rule'] and o.fullkey() == f"{rep['function']}|{rep['key']}"]
    if not hits:
        print('replay: the obligation no longer exists in the current source')
        return 0
    for o in hits:
        print('replay on current source:', json.dumps(o.as_dict(), indent=1))
    return 1 if any(o.verdict == report.REFUTED for o in hits) else 0


def cmd_selftest(argv):
    from .selftest import runner
    props = argv or ALL
    bad = 0
    for p in props:
        if rules_module(p) is None:
            continue
        st = runner.run(p, 0, verbose=True)
        print(p, {k: v for k, v in st.items() if k != 'results'})
        bad += len(st.get('failures', []))
        if os.environ.get('AVS_CORPUS'):
            cp = runner.corpus(p, verbose=True)
            print(p, 'corpus', cp)
            bad += len(cp.get('failures', []))
    return 0 if not bad else 2


def cmd_mkref(argv):
    """Refresh the reviewed snapshot used to undo pure renames, and the bounds reference set (run by hand
    after reviewing the tree; never at check time)."""
    from .core.canon import make_snapshot
    from .core.kernels import make_reference
    from .spec.contracts import CONTRACTS
    from .rules import c11
    rels = set()
    for p in ALL:
        m = rules_module(p)
        for rel in getattr(m, 'FILES', []):
            rels.add(rel)
    rels |= {'abacusnbody/hod/abacus_hod.py', 'abacusnbody/hod/menv.py'}
    src = Source()
    make_snapshot(src.root, sorted(rels))
    n = make_reference(Source(), c11.FILES, CONTRACTS)
    print(f'snapshot of {len(rels)} files, {len(n)} reference triples')
    return 0


def main():
    if len(sys.argv) < 2:
        print(__doc__)
        return 2
    cmd, argv = sys.argv[1], sys.argv[2:]
    fn = dict(check=cmd_check, selfcheck=cmd_selfcheck, explain=cmd_explain, selftest=cmd_selftest, mkref=cmd_mkref).get(cmd)
    if fn is None:
        print(__doc__)
        return 2
    return fn(argv)


if __name__ == '__main__':
    code = main()
    sys.stdout.flush()
    sys.exit(code)
