#!/usr/bin/env python3
"""Runs the registered quick checks against every seeded change under /verif/seeded/<id>/patch.diff:
apply to /repo (git apply), run the checks, undo (git checkout -- .).  Prints which checks fire.
Usage: python3-vt tools_seeded.py [seed-id ...] [--all-checks]"""
import json, os, subprocess, sys, glob

VERIF = os.path.dirname(os.path.abspath(__file__))
ALL = [f'C{n:02d}' for n in range(1, 21)]


def sh(cmd, **kw):
    return subprocess.run(cmd, shell=True, capture_output=True, text=True, **kw)


def main():
    args = [a for a in sys.argv[1:] if not a.startswith('--')]
    allchecks = '--all-checks' in sys.argv
    seeds = sorted(glob.glob(os.path.join(VERIF, 'seeded', '*', 'patch.diff')))
    if args:
        seeds = [s for s in seeds if os.path.basename(os.path.dirname(s)) in args]
    assert sh('git -C /repo status --porcelain').stdout.strip() == '', '/repo has uncommitted changes'
    table = {}
    for patch in seeds:
        sid = os.path.basename(os.path.dirname(patch))
        meta = json.load(open(os.path.join(os.path.dirname(patch), 'meta.json')))
        r = sh(f'git -C /repo apply {patch}')
        if r.returncode != 0:
            print(sid, 'PATCH DOES NOT APPLY', r.stderr.strip()[:200])
            continue
        try:
            fired, errs = [], []
            props = ALL if allchecks else sorted({meta['property']} | set(meta.get('also_check', [])))
            for p in props:
                c = sh(f'python3-vt -m avs check {p}', cwd=VERIF)
                if c.returncode == 1 and 'VIOLATION' in c.stdout:
                    first = [l for l in c.stdout.splitlines() if l.startswith('REFUTED')][:1]
                    fired.append((p, first[0][:200] if first else ''))
                elif c.returncode == 2:
                    errs.append((p, c.stdout.strip().splitlines()[-1][:200]))
            table[sid] = dict(property=meta['property'], fired=[f[0] for f in fired], analysis_errors=[e[0] for e in errs])
            print(f'{sid}: breaks {meta["property"]}; fired: {[f[0] for f in fired] or "NONE"}; exit-2: {[e[0] for e in errs]}')
            for p, l in fired:
                print('     ', l)
            for p, l in errs:
                print('      ERR', p, l)
        finally:
            sh('git -C /repo checkout -- .')
    # restore the evidence of the clean tree
    for p in ALL:
        sh(f'python3-vt -m avs check {p}', cwd=VERIF)
    json.dump(table, open(os.path.join(VERIF, 'seeded', 'RESULTS.json'), 'w'), indent=1)


if __name__ == '__main__':
    main()
