#!/usr/bin/env python3
"""Runs all 20 quick checks against behaviour-preserving changes under /verif/benign/<id>/patch*.diff
(or a directory given with --dir): apply to /repo, run every check, undo.  Any VIOLATION or ANALYSIS-ERROR
is a false alarm of the machinery.  Usage: python3-vt tools_benign.py [--dir /tmp/benign_B01] [id ...]"""
import json, os, subprocess, sys, glob
from concurrent.futures import ThreadPoolExecutor

VERIF = os.path.dirname(os.path.abspath(__file__))
ALL = [f'C{n:02d}' for n in range(1, 21)]


def sh(cmd, **kw):
    return subprocess.run(cmd, shell=True, capture_output=True, text=True, **kw)


def main():
    args = sys.argv[1:]
    dirs = []
    while '--dir' in args:
        i = args.index('--dir')
        dirs.append(args[i + 1])
        del args[i:i + 2]
    patches = []
    for d in dirs:
        patches += sorted(glob.glob(os.path.join(d, 'patch*.diff')))
    if not dirs:
        patches = sorted(glob.glob(os.path.join(VERIF, 'benign', '*', 'patch*.diff')))
        if args:
            patches = [p for p in patches if os.path.basename(os.path.dirname(p)) in args]
    assert sh('git -C /repo status --porcelain').stdout.strip() == '', '/repo has uncommitted changes'
    table = {}
    bad = 0
    for patch in patches:
        pid = os.path.basename(os.path.dirname(patch)) + '/' + os.path.basename(patch)
        r = sh(f'git -C /repo apply {patch}')
        if r.returncode != 0:
            print(pid, 'PATCH DOES NOT APPLY', r.stderr.strip()[:200])
            continue
        try:
            def one(p):
                env = dict(os.environ, AVS_OUT_SUFFIX='benign')
                return p, sh(f'python3-vt -m avs check {p}', cwd=VERIF, env=env)
            with ThreadPoolExecutor(8) as ex:
                res = list(ex.map(one, ALL))
            alarms = []
            for p, c in res:
                if c.returncode != 0:
                    lines = [l for l in c.stdout.splitlines() if l.startswith(('REFUTED', 'ANALYSIS-ERROR'))][:2]
                    alarms.append((p, c.returncode, [l[:400] for l in lines]))
            table[pid] = [dict(check=a[0], exit=a[1], lines=a[2]) for a in alarms]
            print(f'{pid}: ' + ('silent' if not alarms else 'FALSE ALARM ' + ', '.join(f'{a[0]}(exit {a[1]})' for a in alarms)))
            for a in alarms:
                for l in a[2]:
                    print('      ', l)
            bad += len(alarms)
        finally:
            sh('git -C /repo checkout -- .')
    for p in ALL:
        sh(f'python3-vt -m avs check {p}', cwd=VERIF)
    if not dirs:
        json.dump(table, open(os.path.join(VERIF, 'benign', 'RESULTS.json'), 'w'), indent=1)
    return 1 if bad else 0


if __name__ == '__main__':
    sys.exit(main())
